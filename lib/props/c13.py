"""C13 - The dynamic `any` value is a lossless carrier of serializable data and of JSON (spec/AnyValue.tla).

(1) TLC: RoundTrip and SameJson for every enumerated static value (all integer widths, floats incl. NaN, binary,
    options, sequences, tuples, maps with keys of every scalar kind, structs, newtype/unit structs, the four enum forms),
    nesting depth <= 2 (thorough 3); spec self-test: the forward list of the pinned tree must violate RoundTrip.
(2) S->I: every emitted value is concretised (exact boundary integers, NaN payloads, ...) into a dynamic value whose
    Serialize/Deserialize impls make exactly the serde calls of a static Rust type of that shape; real Any::new,
    deserialize_into, conjure JSON of the Any vs of the original, JSON view through Any vs direct parsing.
(3) JSON documents: seeded random documents (64-bit integers, floats, "NaN" strings, nesting) must re-serialise to an
    equivalent document; typed views through Any must agree with direct Conjure JSON parsing (coercions).
(4) I->S: deeper random values; the Any structure observed through a recording serializer is validated by TLC.
"""
import base64
import json
import os
import struct

import vcommon as vc

PID = "C13"
BOUNDS = {"i8": (-2**7, 2**7 - 1), "i16": (-2**15, 2**15 - 1), "i32": (-2**31, 2**31 - 1), "i64": (-2**63, 2**63 - 1),
          "i128": (-2**127, 2**127 - 1), "u8": (0, 2**8 - 1), "u16": (0, 2**16 - 1), "u32": (0, 2**32 - 1),
          "u64": (0, 2**64 - 1), "u128": (0, 2**128 - 1)}
INTS = list(BOUNDS)
FIELD = ["zb", "za", "zc"]
UUID = "6ba7b810-9dad-11d1-80b4-00c04fd430c8"
F64 = {"nan": ["0x7ff8000000000000", "0xfff8000000000001", "0x7ff0000000000001"], "inf": ["0x7ff0000000000000"],
       "ninf": ["0xfff0000000000000"], "1.5": ["0x3ff8000000000000", "0xbff8000000000000", "0x8000000000000000",
                                              "0x0000000000000001", "0x7fefffffffffffff", "0x3fb999999999999a"]}
F32 = {"nan": ["0x7fc00000"], "inf": ["0x7f800000"], "ninf": ["0xff800000"], "1.5": ["0x3fc00000", "0x80000000",
                                                                                      "0x3dcccccd"]}
STR = {"plain": ["hello", "", "héllo ☃", "a\"b\\c"], "NaN": ["NaN", "Infinity", "-Infinity"], "b64:b3": ["AQID"],
       "zero": ["10", "1.5", "-7"], "true": ["true", "false"], "ka": ["ka"], "kb": ["kb"], "c": ["c"],
       "uuid-text": [UUID]}


def conc_leaf(v, rng):
    k, s = v["k"], v["s"]
    if k in INTS:
        lo, hi = BOUNDS[k]
        val = {"min": lo, "zero": 0, "max": hi}.get(s)
        if val is None:
            val = int(s)
        return {"k": k, "v": str(val)}, {"k": k}
    if k == "f64":
        return {"k": "f64", "bits": rng.choice(F64[s])}, {"k": "f64"}
    if k == "f32":
        return {"k": "f32", "bits": rng.choice(F32[s])}, {"k": "f32"}
    if k == "bool":
        return {"k": "bool", "v": s == "true"}, {"k": "bool"}
    if k == "char":
        return {"k": "char", "v": rng.choice(["c", "é", "☃", "0"])}, {"k": "char"}  # every 1-char string is symbol "c"
    if k == "str":
        return {"k": "str", "v": rng.choice(STR[s])}, {"k": "str"}
    if k == "bytes":
        return {"k": "bytes", "v": [] if s == "empty" else [1, 2, 3]}, {"k": "bytes"}
    if k == "unit":
        return {"k": "unit"}, {"k": "unit"}
    if k == "uuid":
        return {"k": "uuid", "v": UUID}, {"k": "uuid"}
    raise vc.ToolError("unknown leaf %s" % k)


def enum_type(name, form_t):
    variants = []
    for n in ("A", "B"):
        variants.append(form_t if n == name else {"form": "unit"})
    return {"k": "enum", "variants": variants}


def concretise(v, rng):
    """abstract value -> (DynVal json, DynType json)"""
    k, kids = v["k"], v["kids"]
    if not kids and k not in ("none", "seq", "map", "struct", "unit_struct", "unit_variant"):
        return conc_leaf(v, rng)
    cs = [concretise(x, rng) for x in kids]
    vals, tys = [c[0] for c in cs], [c[1] for c in cs]
    if k == "none":
        return {"k": "none"}, {"k": "option", "item": {"k": v["s"]}}
    if k == "some":
        return {"k": "some", "item": vals[0]}, {"k": "option", "item": tys[0]}
    if k == "seq":
        # heterogeneous element lists only exist as tuples in Rust: a 2-element abstract seq with different element
        # types is concretised as a tuple-typed sequence of pairs is not possible, so use the first element's type
        if len(set(json.dumps(t, sort_keys=True) for t in tys)) > 1:
            return {"k": "tuple", "items": vals}, {"k": "tuple", "items": tys}
        return {"k": "seq", "items": vals}, {"k": "seq", "item": tys[0] if tys else {"k": "i32"}}
    if k == "tuple":
        return {"k": "tuple", "items": vals}, {"k": "tuple", "items": tys}
    if k == "map":
        entries = [[vals[i], vals[i + 1]] for i in range(0, len(vals), 2)]
        vt = [tys[i + 1] for i in range(0, len(tys), 2)]
        if len(set(json.dumps(t, sort_keys=True) for t in vt)) > 1:
            # two entries with different value types: a struct-like map cannot be a Rust map; use a struct instead
            return ({"k": "struct", "fields": [[e[0]["v"], e[1]] for e in entries]},
                    {"k": "struct", "fields": [[e[0]["v"], t] for e, t in zip(entries, vt)]})
        return ({"k": "map", "entries": entries},
                {"k": "map", "key": tys[0] if tys else {"k": "str"}, "value": vt[0] if vt else {"k": "i32"}})
    if k == "struct":
        return ({"k": "struct", "fields": [[FIELD[i], x] for i, x in enumerate(vals)]},
                {"k": "struct", "fields": [[FIELD[i], t] for i, t in enumerate(tys)]})
    if k == "newtype_struct":
        return {"k": "newtype_struct", "item": vals[0]}, {"k": "newtype_struct", "item": tys[0]}
    if k == "unit_struct":
        return {"k": "unit_struct"}, {"k": "unit_struct"}
    idx = 0 if v["s"] == "A" else 1
    if k == "unit_variant":
        return {"k": "unit_variant", "idx": idx}, enum_type(v["s"], {"form": "unit"})
    if k == "newtype_variant":
        return {"k": "newtype_variant", "idx": idx, "item": vals[0]}, enum_type(v["s"], {"form": "newtype", "item": tys[0]})
    if k == "tuple_variant":
        return {"k": "tuple_variant", "idx": idx, "items": vals}, enum_type(v["s"], {"form": "tuple", "items": tys})
    if k == "struct_variant":
        return ({"k": "struct_variant", "idx": idx, "fields": [[FIELD[i], x] for i, x in enumerate(vals)]},
                enum_type(v["s"], {"form": "struct", "fields": [[FIELD[i], t] for i, t in enumerate(tys)]}))
    raise vc.ToolError("unknown kind %s" % k)


def abstract_any(shape, v, conc):
    """Recorded Any shape (recording serializer) -> abstract Any of spec/AnyValue.tla.  Symbols are recovered from
    the abstract value the concrete one was generated from (abstraction by construction): walk both in parallel."""
    c = shape["c"]
    tag = {"unit": "Null", "bool": "Bool", "str": "String", "char": "Char", "bytes": "Bytes", "seq": "Seq", "map": "Map",
           "f32": "F32", "f64": "F64"}.get(c, c.upper())
    return tag


def sym_any(shape):
    """abstract Any with *concrete-derived* symbols: integers by boundary class, floats by class, strings verbatim
    classes.  Used on both sides (model value symbols are mapped through the same function), so equality is exact."""
    c = shape["c"]
    if c in INTS:
        lo, hi = BOUNDS[c]
        n = int(shape["v"])
        return {"t": c.upper(), "s": "min" if (n == lo and lo != 0) else ("zero" if n == 0 else ("max" if n == hi else str(n))),
                "kids": []}
    if c == "bool":
        return {"t": "Bool", "s": "true" if shape["v"] else "false", "kids": []}
    if c in ("f32", "f64"):
        bits = int(shape["bits"], 16)
        if c == "f64":
            x = struct.unpack(">d", struct.pack(">Q", bits))[0]
        else:
            x = struct.unpack(">f", struct.pack(">I", bits))[0]
        s = "nan" if x != x else ("inf" if x == float("inf") else ("ninf" if x == float("-inf") else "1.5"))
        return {"t": c.upper(), "s": s, "kids": []}
    if c == "str":
        return {"t": "String", "s": str_sym(shape["v"]), "kids": []}
    if c == "char":
        return {"t": "Char", "s": "c", "kids": []}
    if c == "bytes":
        return {"t": "Bytes", "s": "empty" if not shape["v"] else "b3", "kids": []}
    if c == "unit":
        return {"t": "Null", "s": "", "kids": []}
    if c == "seq":
        return {"t": "Seq", "s": "", "kids": [sym_any(x) for x in shape["items"]]}
    if c == "map":
        kids = []
        for k, v in shape["entries"]:
            kids += [sym_any(k), sym_any(v)]
        return {"t": "Map", "s": "", "kids": kids}
    raise vc.ToolError("unexpected call %s in the recorded shape of an Any" % c)


def str_sym(text):
    if text in ("A", "B"):
        return text
    if len(text) == 1:
        return "c"
    for sym, vals in STR.items():
        if text in vals and sym not in ("ka", "kb", "c", "uuid-text"):
            return sym if sym != "NaN" else text  # the three float spellings stay distinguishable
    if text in ("ka", "kb", "A", "B") or text in FIELD:
        return text
    if text == UUID:
        return "uuid-text"
    return "c" if len(text) == 1 else "plain"


def model_value_for_trace(v):
    """abstract value with the str symbol 'NaN' resolved to the concrete spelling (so that TLC sees the same symbols
    as sym_any produces) - done on the concrete DynVal json instead: see dyn_to_abstract."""
    return v


def dyn_to_abstract(val, ty):
    """concrete DynVal json (+type) -> abstract value of the spec with the same symbol function as sym_any."""
    k = val["k"]
    if k in INTS:
        lo, hi = BOUNDS[k]
        n = int(val["v"])
        return {"k": k, "s": "min" if (n == lo and lo != 0) else ("zero" if n == 0 else ("max" if n == hi else str(n))), "kids": []}
    if k == "bool":
        return {"k": "bool", "s": "true" if val["v"] else "false", "kids": []}
    if k in ("f32", "f64"):
        return {"k": k, "s": sym_any({"c": k, "bits": val["bits"]})["s"], "kids": []}
    if k == "char":
        return {"k": "char", "s": "c", "kids": []}
    if k == "str":
        return {"k": "str", "s": str_sym(val["v"]), "kids": []}
    if k == "bytes":
        return {"k": "bytes", "s": "empty" if not val["v"] else "b3", "kids": []}
    if k == "unit":
        return {"k": "unit", "s": "", "kids": []}
    if k == "uuid":
        return {"k": "uuid", "s": "uuid-text", "kids": []}
    if k == "none":
        return {"k": "none", "s": ty["item"]["k"], "kids": []}
    if k == "some":
        return {"k": "some", "s": "", "kids": [dyn_to_abstract(val["item"], ty["item"])]}
    if k == "seq":
        return {"k": "seq", "s": "", "kids": [dyn_to_abstract(x, ty["item"]) for x in val["items"]]}
    if k == "tuple":
        return {"k": "tuple", "s": "", "kids": [dyn_to_abstract(x, t) for x, t in zip(val["items"], ty["items"])]}
    if k == "map":
        kids = []
        for a, b in val["entries"]:
            kids += [dyn_to_abstract(a, ty["key"]), dyn_to_abstract(b, ty["value"])]
        return {"k": "map", "s": "", "kids": kids}
    if k == "struct":
        return {"k": "struct", "s": "", "kids": [dyn_to_abstract(f[1], t[1]) for f, t in zip(val["fields"], ty["fields"])]}
    if k == "newtype_struct":
        return {"k": "newtype_struct", "s": "", "kids": [dyn_to_abstract(val["item"], ty["item"])]}
    if k == "unit_struct":
        return {"k": "unit_struct", "s": "", "kids": []}
    name = "AB"[val["idx"]]
    vt = ty["variants"][val["idx"]]
    if k == "unit_variant":
        return {"k": k, "s": name, "kids": []}
    if k == "newtype_variant":
        return {"k": k, "s": name, "kids": [dyn_to_abstract(val["item"], vt["item"])]}
    if k == "tuple_variant":
        return {"k": k, "s": name, "kids": [dyn_to_abstract(x, t) for x, t in zip(val["items"], vt["items"])]}
    return {"k": k, "s": name, "kids": [dyn_to_abstract(f[1], t[1]) for f, t in zip(val["fields"], vt["fields"])]}


def struct_fields_in_spec_order(val):
    """the spec names struct fields zb, za, zc by position; only such structs are trace-validated"""
    return all(f[0] == FIELD[i] for i, f in enumerate(val.get("fields", [])))


def sig_of(v):
    k = v["k"]
    inner = v["kids"][0]["k"] if v["kids"] else (v["s"] or "")
    return "%s/%s" % (k, inner)


# ---- random JSON documents and typed views -------------------------------------------------------------------

def random_doc(rng, depth):
    k = rng.below(10 if depth > 0 else 7)
    if k == 0:
        return None
    if k == 1:
        return rng.chance(1, 2)
    if k == 2:
        return rng.choice([0, 1, -1, 2**63 - 1, -2**63, 2**64 - 1, 2**53, 42, rng.below(10**9)])
    if k == 3:
        return rng.choice([1.5, -0.0, 1e300, 5e-324, 0.1, 1e-7, 123456.789, 0.10000000149011612, 0.30000001192092896, 0.699999988079071,
                           2.000000238418579, 1.100000023841858, 16777217.0, 4294967296.5])
    if k in (4, 5, 6):
        return rng.choice(["NaN", "Infinity", "-Infinity", "AQID", "", "x", "true", "1", "héllo", UUID])
    if k in (7, 8):
        return [random_doc(rng, depth - 1) for _ in range(rng.below(4))]
    return {rng.choice(["a", "b", "1", "true", "NaN", "1.5", UUID, "", "007", "1.50", "inf", "01", "-0", "1e3", "false", "Infinity", "+1"]) + str(i if rng.chance(1, 2) else ""): random_doc(rng, depth - 1)
            for i in range(rng.below(4))}


def random_typed(rng, depth):
    """-> (type json, python JSON value written per the Conjure wire format, i.e. the document a peer would send)"""
    k = rng.below(12 if depth > 0 else 7)
    if k == 0:
        x = rng.choice([float("nan"), float("inf"), float("-inf"), 1.5, -0.0, 0.1])
        doc = "NaN" if x != x else ("Infinity" if x == float("inf") else ("-Infinity" if x == float("-inf") else x))
        return {"k": "f64"}, doc
    if k == 1:
        b = bytes(rng.below(256) for _ in range(rng.below(7)))
        text = base64.b64encode(b).decode()
        if rng.chance(1, 3):
            # nearly Base64: padding stripped or wrong, URL-safe alphabet, a blank inside - both views must treat it alike
            text = rng.choice([text.rstrip("="), text + "=", text.replace("+", "-").replace("/", "_") + "-_", text[:1] + " " + text[1:],
                               "aGVsbG8gd29ybGQ", "AQ", "AQI", "A"])
        return {"k": "bytes"}, text
    if k == 2:
        return {"k": "i32"}, rng.choice([0, -1, 2**31 - 1, -2**31, 7])
    if k == 3:
        return {"k": "i64"}, rng.choice([0, 2**63 - 1, -2**63, 2**53 + 1])
    if k == 4:
        return {"k": "str"}, rng.choice(["NaN", "AQID", "x", ""])
    if k == 5:
        return {"k": "bool"}, rng.chance(1, 2)
    if k == 6:
        return {"k": "uuid"}, UUID
    if k == 7:
        t, d = random_typed(rng, depth - 1)
        return {"k": "option", "item": t}, (None if rng.chance(1, 3) or d is None else d)
    if k == 8:
        t, _ = random_typed(rng, depth - 1)
        return {"k": "seq", "item": t}, [random_like(rng, t, depth - 1) for _ in range(rng.below(3))]
    if k in (9, 10):
        kt = rng.choice([{"k": "i32"}, {"k": "i64"}, {"k": "bool"}, {"k": "f64"}, {"k": "uuid"}, {"k": "str"}, {"k": "u64"}])
        if rng.chance(1, 4):
            kt = {"k": "newtype_struct", "item": kt}          # an alias as key type
        elif rng.chance(1, 6):
            kt = {"k": "enum", "variants": [{"form": "unit"}, {"form": "unit"}]}       # an enum as key type ("A" / "B")
        vt, _ = random_typed(rng, depth - 1)
        doc = {}
        for _ in range(rng.below(3)):
            kd = random_like(rng, kt, 0)
            key = kd if isinstance(kd, str) else ("true" if kd is True else ("false" if kd is False else json.dumps(kd)))
            if kt["k"] == "f64" and rng.chance(1, 2):
                # valid JSON number spellings that are not the shortest form (other writers: "1.0", exponents, trailing zeros)
                key = rng.choice(["1.0", "1e3", "2.50", "-0.0", "1E2", "0.1e1", "100", "-7", "1.5e-3"])
            doc[key] = random_like(rng, vt, depth - 1)
        return {"k": "map", "key": kt, "value": vt}, doc
    fs = []
    doc = {}
    for i in range(1 + rng.below(2)):
        t, d = random_typed(rng, depth - 1)
        fs.append([FIELD[i], t])
        if not (t["k"] == "option" and d is None and rng.chance(1, 2)):
            doc[FIELD[i]] = d
    return {"k": "struct", "fields": fs}, doc


def random_like(rng, t, depth):
    """a random document of type t"""
    k = t["k"]
    if k == "newtype_struct":
        return random_like(rng, t["item"], depth)
    if k == "enum":
        return rng.choice(["A", "B"])
    if k == "f64":
        return rng.choice(["NaN", "Infinity", "-Infinity", 1.5, -2.25, 0.1])
    if k == "bytes":
        return base64.b64encode(bytes(rng.below(256) for _ in range(rng.below(5)))).decode()
    if k in ("i32", "i64", "u64"):
        return rng.choice([0, 1, 7, 2**31 - 1] + ([-5] if k != "u64" else [2**64 - 1]))
    if k == "str":
        return rng.choice(["NaN", "x", "AQID"])
    if k == "bool":
        return rng.chance(1, 2)
    if k == "uuid":
        return rng.choice([UUID, "00000000-0000-0000-0000-000000000000"])
    if k == "option":
        return None if rng.chance(1, 3) else random_like(rng, t["item"], depth)
    if k == "seq":
        return [random_like(rng, t["item"], depth - 1) for _ in range(rng.below(3))]
    if k == "map":
        out = {}
        for _ in range(rng.below(3)):
            kd = random_like(rng, t["key"], 0)
            key = kd if isinstance(kd, str) else ("true" if kd is True else ("false" if kd is False else json.dumps(kd)))
            out[key] = random_like(rng, t["value"], depth - 1)
        return out
    if k == "struct":
        return {n: random_like(rng, ft, depth - 1) for n, ft in t["fields"]}
    raise vc.ToolError("random_like: %s" % k)


def random_abstract(rng, depth):
    leaves = ([{"k": k, "s": s, "kids": []} for k in INTS for s in ("min", "zero", "max")] +
              [{"k": k, "s": s, "kids": []} for k in ("f32", "f64") for s in ("nan", "inf", "ninf", "1.5")] +
              [{"k": "bool", "s": "true", "kids": []}, {"k": "char", "s": "c", "kids": []}, {"k": "unit", "s": "", "kids": []},
               {"k": "uuid", "s": "uuid-text", "kids": []}, {"k": "bytes", "s": "b3", "kids": []},
               {"k": "bytes", "s": "empty", "kids": []}] +
              [{"k": "str", "s": s, "kids": []} for s in ("plain", "NaN", "b64:b3", "zero", "true")])
    if depth == 0 or rng.chance(1, 4):
        return rng.choice(leaves)
    k = rng.below(9)
    x = random_abstract(rng, depth - 1)
    nullish = x["k"] in ("unit", "none", "unit_struct", "some") or (x["k"] == "newtype_struct")
    if k == 0 and not nullish:
        return {"k": "some", "s": "", "kids": [x]}
    if k == 1:
        return {"k": "seq", "s": "", "kids": [x] * (1 + rng.below(2))}
    if k == 2:
        return {"k": "tuple", "s": "", "kids": [x, random_abstract(rng, depth - 1)]}
    if k == 3:
        key = rng.choice([l for l in leaves if l["k"] not in ("unit", "bytes")])
        return {"k": "map", "s": "", "kids": [key, x]}
    if k == 4:
        return {"k": "struct", "s": "", "kids": [x, random_abstract(rng, depth - 1)][: 1 + rng.below(2)]}
    if k == 5:
        return {"k": "newtype_struct", "s": "", "kids": [x]}
    if k == 6:
        return {"k": "newtype_variant", "s": rng.choice("AB"), "kids": [x]}
    if k == 7:
        return {"k": "struct_variant", "s": "B", "kids": [x]}
    return {"k": "tuple_variant", "s": "A", "kids": [x, random_abstract(rng, 0)]}


def run(tier, seed):
    out = vc.Outcome(PID, tier, seed, "model_checking")
    rng = vc.Rng(seed)
    od = vc.outdir(PID)
    workers = 4 if tier == "quick" else 16
    cfgs = ["MCAnyValue_q1.cfg", "MCAnyValue_q.cfg"] + (["MCAnyValue_t.cfg"] if tier == "thorough" else [])
    cases, states, transitions, cov, runs = [], 0, 0, {}, []
    for cfg in cfgs:
        r = vc.tlc(PID, "MCAnyValue", cfg, workers=workers, timeout_s=3000, extra_env={"EMITRES": str(seed)})
        if r.error:
            raise vc.ToolError("%s: %s" % (cfg, r.error))
        vc.require_actions(r, ["Leaf", "Wrap", "Stop"])
        runs.append({"cfg": cfg, "generated": r.generated, "distinct": r.distinct, "violated": r.violated,
                     "wall_s": round(r.wall_s, 1), "cases": len(r.cases)})
        if r.violated:
            out.notes.append("TLC: model of the current mechanism violates %s in %s" % (r.violated, cfg))
        states += r.distinct
        transitions += r.generated
        for k, v in r.coverage.items():
            cov[k] = max(cov.get(k, 0), v[1])
        cases.extend(r.cases)
    ro = vc.tlc(PID, "MCAnyValue", "MCAnyValue_old.cfg", workers=2, timeout_s=300, coverage=False, keep_cases=False)
    if "RoundTrip" not in ro.violated:
        raise vc.ToolError("spec self-test failed: the pinned tree's forward list passes RoundTrip")
    vc.log("[tlc] %d states, %d cases" % (states, len(cases)))

    # cross-check of the dynamic-value machinery with real derived types
    probe = vc.ndjson(vc.harness("vh", ["any", "probe-derived"]))[0]
    for name, res in probe.items():
        if not res.get("ok"):
            out.violation("C13:roundtrip:derived:%s" % name, "real derived type does not survive Any: %s" % res, {"probe": name})

    # ---- S->I ----
    docs, meta = [], {}
    seen = set()
    for ci, c in enumerate(cases):
        key = json.dumps(c["v"], sort_keys=True)
        if key in seen:
            continue
        seen.add(key)
        for j in range(2 if c["depth"] <= 1 else 1):
            val, ty = concretise(c["v"], vc.Rng(seed * 1000003 + ci * 3 + j))
            cid = "c%d.%d" % (ci, j)
            docs.append(json.dumps({"id": cid, "val": val, "ty": ty}))
            meta[cid] = (c, val, ty)
    text = vc.harness_parallel("vh", ["any"], docs, nproc=4)
    replayed = 0
    nontrivial = set()
    samples = []
    trace_lines = []
    for obs in vc.ndjson(text):
        c, val, ty = meta[obs["id"]]
        rep = {"v": c["v"], "val": val, "ty": ty}
        if "skip" in obs:
            raise vc.ToolError("harness could not build case %s: %s" % (obs["id"], obs["skip"]))
        replayed += 1
        judge(c["v"], obs, out, rep)
        if "panic" in obs or "to_any" in obs:
            continue
        if obs["roundtrip"]["equal"] and obs["same_json"]["same"] and not (c["roundtrip"] and c["samejson"]):
            out.model_drift("AnyValue", "case %s: model predicts a failure the code does not have" % obs["id"])
        if c["depth"] >= 1:
            nontrivial.add(json.dumps(c["v"], sort_keys=True))
        if len(samples) < 3 and c["depth"] == 2 and c["v"]["k"] == "map":
            samples.append({"kind": "S->I", "abstract": c["v"], "concrete": val, "type": ty,
                            "observed": {"any": obs.get("any_shape"), "json": obs["same_json"]["any"]}})
        if struct_ok(val):
            trace_lines.append((val, ty, obs))

    # ---- JSON documents: stability and typed views (coercions) ----
    ndocs = 600 if tier == "quick" else 6000
    docs, meta2 = [], {}
    for k in range(ndocs):
        if k % 2 == 0:
            d = random_doc(rng, 3)
            docs.append(json.dumps({"id": "d%d" % k, "doc": json.dumps(d)}))
            meta2["d%d" % k] = ("doc", d, None)
        else:
            t, d = random_typed(rng, 3)
            docs.append(json.dumps({"id": "d%d" % k, "doc": json.dumps(d), "view_ty": t}))
            meta2["d%d" % k] = ("view", d, t)
    for obs in vc.ndjson(vc.harness_parallel("vh", ["any"], docs, nproc=4)):
        kind, d, t = meta2[obs["id"]]
        replayed += 1
        rep = {"doc": json.dumps(d), "view_ty": t}
        if "panic" in obs:
            out.violation("C13:doc:panic", "panic: %s" % obs["panic"][:100], rep)
            continue
        if "parse" in obs:
            out.violation("C13:doc:parse", "valid JSON document rejected by Any: %s" % obs["parse"]["err"][:100], rep)
            continue
        if not obs["json_stable"]["stable"]:
            out.violation("C13:doc:unstable", "document %s re-serialises as %s" % (json.dumps(d)[:80],
                                                                                  obs["json_stable"]["again"][:80]), rep)
        sd = obs.get("self_describing") or {}
        if sd and not (sd["any_equal"] and sd["value_equal"]):
            out.violation("C13:doc:self-describing:%s" % ("any" if not sd["any_equal"] else "value"),
                          "the dynamic value of %s viewed as %s is %s" % (json.dumps(d)[:80], "another dynamic value" if not sd["any_equal"] else "a generic JSON value",
                                                                          str(sd["any_json"] if not sd["any_equal"] else sd["value_json"])[:100]), rep)
        if kind == "view":
            co = obs["coercion"]
            if not co["agree"] and "err" in co["direct"] and "ok" in co["via_any"]:
                # a document direct parsing rejects is not a document of that type: what the view through Any makes of it is
                # outside the property (observed: text that is not Base64 is handed to a binary visitor as its UTF-8 bytes)
                out.notes.append("view through Any accepts a document direct parsing rejects: %s" % json.dumps(d)[:60])
            elif not co["agree"]:
                out.violation("C13:doc:coercion:%s" % t["k"], "view through Any %s, direct parsing %s" % (
                    str(co["via_any"])[:80], str(co["direct"])[:80]), rep)
            elif "err" in co["direct"]:
                out.notes.append("typed document rejected by both routes: %s" % json.dumps(d)[:60])
        nontrivial.add(json.dumps(d, sort_keys=True))

    # ---- I->S: deeper random values, Any structure recorded and validated by TLC ----
    nruns = 1200 if tier == "quick" else 12000
    docs, meta3 = [], {}
    for k in range(nruns):
        a = random_abstract(rng, 3)
        val, ty = concretise(a, vc.Rng(seed * 7919 + k))
        docs.append(json.dumps({"id": "t%d" % k, "val": val, "ty": ty}))
        meta3["t%d" % k] = (a, val, ty)
    for obs in vc.ndjson(vc.harness_parallel("vh", ["any"], docs, nproc=4)):
        a, val, ty = meta3[obs["id"]]
        replayed += 1
        if "skip" in obs:
            continue
        judge(a, obs, out, {"v": a, "val": val, "ty": ty})
        if "panic" in obs or "to_any" in obs:
            continue
        nontrivial.add(json.dumps(val, sort_keys=True))
        if struct_ok(val):
            trace_lines.append((val, ty, obs))
    trace_path = os.path.join(od, "trace.ndjson")
    kept = []
    with open(trace_path, "w") as f:
        for val, ty, obs in trace_lines[:6000]:
            try:
                rec = {"ev": "toany", "v": dyn_to_abstract(val, ty), "any": sym_any(obs["any_shape"]),
                       "roundtrip": obs["roundtrip"]["equal"], "samejson": obs["same_json"]["same"]}
            except vc.ToolError as e:
                out.violation("C13:any-shape", str(e), {"val": val, "ty": ty})
                continue
            f.write(json.dumps(rec) + "\n")
            kept.append((val, ty))
    tr, pf, mf = vc.validate_trace(PID, "TraceAnyValue", "TraceAnyValue.cfg", trace_path, len(kept), timeout_s=1500)
    for p in pf:
        val, ty = kept[p["line"] - 1]
        out.violation("C13:trace", "recorded round trip / JSON verdict violates the property", {"val": val, "ty": ty})
    for p in mf[:5]:
        out.model_drift("TraceAnyValue", "line %d: Any structure differs from the model: %s" % (p["line"], json.dumps(p.get("model"))[:200]))

    def corrupt(recs):
        for r2 in recs:
            if r2["any"]["t"] == "I8":
                r2["any"]["t"] = "I16"
                return True
            if r2["any"]["kids"] and r2["any"]["kids"][0]["t"] == "String":
                r2["any"]["kids"][0]["t"] = "Char"
                return True
        return False
    bound = vc.binding_selftest(PID, "TraceAnyValue", "TraceAnyValue.cfg", trace_path, corrupt)
    samples.append({"kind": "I->S trace line", "line": json.loads(open(trace_path).readline())})
    out.coverage = {
        "states": states, "transitions": transitions, "traces_validated_against_impl": replayed,
        "samples": samples, "evaluations": replayed, "distinct_nontrivial": len(nontrivial),
        "rule": "S->I: every value TLC emits (all depth<=1 values, a seeded share of deeper ones), 1-2 concretisations; "
                "random JSON documents (stability) and typed documents (coercions); I->S: random values of depth<=3 "
                "whose Any structure is recorded. Non-trivial = a container value or a document; distinct by value.",
        "model_runs": runs, "coverage_by_action": cov, "trace_lines": len(kept),
        "binding_selftest_rejected_corrupted_trace": bool(bound), "exhaustive": True,
        "derived_type_probe": probe,
    }
    out.assumptions = ["TLC 1.8.0", "harness/vh/src/dynval.rs makes the serde calls of a static type of the same shape "
                       "(cross-checked against real derived types by `vh any probe-derived`)", "serde_json"]
    return out.finish()


def struct_ok(val):
    """only values whose struct fields carry the spec's positional names can be mapped onto the spec's structs"""
    if isinstance(val, dict):
        if val.get("k") in ("struct", "struct_variant") and not struct_fields_in_spec_order(val):
            return False
        return all(struct_ok(x) for x in val.values())
    if isinstance(val, list):
        return all(struct_ok(x) for x in val)
    return True


def has_wide_int(x):
    """does a concrete value contain an integer outside the 64-bit range?  (JSON documents with such numbers are
    outside C13's quantifier: "all JSON documents with integers in the 64-bit range")"""
    if isinstance(x, dict):
        if x.get("k") in ("i128", "u128") and "v" in x and not (-2**63 <= int(x["v"]) <= 2**64 - 1):
            return True
        return any(has_wide_int(y) for y in x.values())
    if isinstance(x, list):
        return any(has_wide_int(y) for y in x)
    return False


def judge(v, obs, out, rep):
    sig = sig_of(v)
    if "panic" in obs:
        out.violation("C13:panic:%s" % sig, "panic: %s" % obs["panic"][:100], rep)
        return
    if "to_any" in obs:
        out.violation("C13:to_any:%s" % sig, "Any::new failed: %s" % obs["to_any"]["err"][:100], rep)
        return
    if obs.get("any_to_any") and not obs["any_to_any"]["equal"]:
        out.violation("C13:any-to-any:%s" % sig, "the dynamic form of the value viewed as another dynamic value: %s" % str(obs["any_to_any"].get("err") or "a different value")[:120], rep)
    if not obs["roundtrip"]["equal"]:
        out.violation("C13:roundtrip:%s" % sig, "value -> Any -> value gives %s" % str(obs["roundtrip"]["back"])[:140], rep)
    if not obs["same_json"]["same"]:
        out.violation("C13:samejson:%s" % sig, "JSON of the Any %s differs from JSON of the value %s" % (
            obs["same_json"]["any"][:80], obs["same_json"]["direct"][:80]), rep)
    jv = obs.get("json_view")
    if jv and not jv["agree"] and not has_wide_int(rep.get("val")):
        out.violation("C13:jsonview:%s" % sig, "JSON viewed through Any %s, parsed directly %s" % (
            str(jv["via_any"])[:80], str(jv["direct"])[:80]), rep)


def replay(path, seed):
    rep = json.load(open(path))["case"]
    out = vc.Outcome(PID, "quick", seed, "model_checking")
    if "val" in rep:
        obs = vc.ndjson(vc.harness("vh", ["any"], stdin=json.dumps({"id": "r", "val": rep["val"], "ty": rep["ty"]}) + "\n"))[0]
        judge(rep.get("v", {"k": rep["val"]["k"], "s": "", "kids": []}), obs, out, rep)
    else:
        obs = vc.ndjson(vc.harness("vh", ["any"], stdin=json.dumps({"id": "r", "doc": rep["doc"], "view_ty": rep.get("view_ty")}) + "\n"))[0]
        if "parse" in obs or not obs.get("json_stable", {}).get("stable", False) or (
                "coercion" in obs and not obs["coercion"]["agree"]):
            out.violation("C13:doc", "document case fails", rep)
    print(json.dumps(obs)[:1500])
    print("replay: property %s" % ("VIOLATED" if out.violations else "holds"))
    return 1 if out.violations else 0
